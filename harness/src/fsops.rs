//! Engines over the workspace file system: patch application (C12), path arguments (C13),
//! checkpoints / rewind (C14).
use std::collections::BTreeMap;
use std::path::{Path, PathBuf};
use std::sync::Arc;

use rip_tools::{register_builtin_tools, BuiltinToolConfig, ToolInvocation, ToolRegistry, ToolRunner};
use serde_json::{json, Value};

use crate::util::{self, NdjsonOut};

pub fn content_bytes(c: &Value) -> Option<Vec<u8>> {
    match c["t"].as_str() {
        Some("text") => {
            let eol = if c["eol"] == "crlf" { "\r\n" } else { "\n" };
            let lines: Vec<String> = c["lines"]
                .as_array()
                .map(|a| a.iter().map(|l| l.as_str().unwrap_or("").to_string()).collect())
                .unwrap_or_default();
            if lines.is_empty() {
                return Some(Vec::new());
            }
            let mut s = lines.join(eol);
            if c["nl"].as_bool().unwrap_or(false) {
                s.push_str(eol);
            }
            Some(s.into_bytes())
        }
        Some("bin") => Some(vec![0xff, 0xfe, 0x00, 0x80]),
        _ => None,
    }
}

pub fn materialise(root: &Path, fs: &Value) {
    if let Some(o) = fs.as_object() {
        for (p, c) in o {
            let path = root.join(p);
            match c["t"].as_str() {
                Some("dir") => {
                    let _ = std::fs::create_dir_all(&path);
                }
                Some("absent") | None => {}
                _ => {
                    if let Some(parent) = path.parent() {
                        let _ = std::fs::create_dir_all(parent);
                    }
                    let _ = std::fs::write(&path, content_bytes(c).unwrap_or_default());
                }
            }
        }
    }
}

/// files (hex bytes) and directories below root, without the `.rip` metadata directory
pub fn listing(root: &Path) -> BTreeMap<String, Value> {
    util::tree_contents(root)
        .into_iter()
        .filter(|(k, _)| !k.starts_with(".rip"))
        .collect()
}

fn render_hunk(h: &Value, out: &mut String) {
    out.push_str("@@\n");
    let b: Vec<&str> = h["b"].as_array().map(|a| a.iter().filter_map(|x| x.as_str()).collect()).unwrap_or_default();
    let a: Vec<&str> = h["a"].as_array().map(|a| a.iter().filter_map(|x| x.as_str()).collect()).unwrap_or_default();
    // a common prefix is rendered as context lines
    let mut k = 0;
    while k < b.len() && k < a.len() && b[k] == a[k] {
        out.push_str(&format!(" {}\n", b[k]));
        k += 1;
    }
    for l in &b[k..] {
        out.push_str(&format!("-{l}\n"));
    }
    for l in &a[k..] {
        out.push_str(&format!("+{l}\n"));
    }
}

pub fn render_patch(doc: &Value) -> String {
    let ops = doc.as_array().cloned().unwrap_or_default();
    let bad: Vec<&str> = ops.iter().filter(|o| o["k"] == "bad").filter_map(|o| o["why"].as_str()).collect();
    let mut out = String::new();
    if !bad.contains(&"no_header") {
        out.push_str("*** Begin Patch\n");
    }
    for o in &ops {
        match o["k"].as_str() {
            Some("add") => {
                out.push_str(&format!("*** Add File: {}\n", o["p"].as_str().unwrap_or("")));
                for l in o["lines"].as_array().cloned().unwrap_or_default() {
                    out.push_str(&format!("+{}\n", l.as_str().unwrap_or("")));
                }
            }
            Some("del") => out.push_str(&format!("*** Delete File: {}\n", o["p"].as_str().unwrap_or(""))),
            Some("upd") => {
                out.push_str(&format!("*** Update File: {}\n", o["p"].as_str().unwrap_or("")));
                if o["mv"] != "none" {
                    out.push_str(&format!("*** Move to: {}\n", o["mv"].as_str().unwrap_or("")));
                }
                for h in o["hs"].as_array().cloned().unwrap_or_default() {
                    render_hunk(&h, &mut out);
                }
            }
            Some("bad") => match o["why"].as_str().unwrap_or("") {
                "bad_prefix" => out.push_str("*** Update File: f\n@@\nxoops\n"),
                "abs_path" => out.push_str("*** Add File: /tmp/ripverif-abs-should-not-exist\n+x\n"),
                "dotdot" => out.push_str("*** Add File: ../ripverif-escape\n+x\n"),
                "empty_path" => out.push_str("*** Add File: \n+x\n"),
                "no_hunks" => out.push_str("*** Update File: g\n"),
                "add_no_plus" => out.push_str("*** Add File: zz\nplain line\n"),
                "garbage_line" => out.push_str("hello world\n"),
                _ => {}
            },
            _ => {}
        }
    }
    if !bad.contains(&"no_footer") {
        out.push_str("*** End Patch");
    }
    out
}

/// manifest of a foreign "checkpoint": restoring it deletes a.txt and ../a.txt (seen from the root)
const PLANTED_MANIFEST: &str = r#"{"id":"planted","session_id":"planted","label":"planted","created_at_ms":1,"files":[{"path":"a.txt","exists":false,"sha256":null},{"path":"../a.txt","exists":false,"sha256":null}]}"#;

pub fn tool_runner(root: &Path) -> ToolRunner {
    let registry = Arc::new(ToolRegistry::default());
    register_builtin_tools(
        &registry,
        BuiltinToolConfig {
            workspace_root: root.to_path_buf(),
            ..BuiltinToolConfig::default()
        },
    );
    ToolRunner::new(registry, 2)
}

pub fn run_tool(rt: &tokio::runtime::Runtime, runner: &ToolRunner, name: &str, args: Value, timeout_ms: Option<u64>) -> Vec<Value> {
    let mut seq = 0u64;
    let events = rt.block_on(runner.run(
        "verif-session",
        &mut seq,
        ToolInvocation {
            name: name.to_string(),
            args,
            timeout_ms,
        },
    ));
    events.iter().map(|e| serde_json::to_value(e).unwrap_or(Value::Null)).collect()
}

pub fn engine_patch(rt: &tokio::runtime::Runtime, cases: Vec<Value>, out: &mut NdjsonOut) {
    let base = util::scratch_root();
    for case in cases {
        let root = base.join(format!("patch-{}", uuid::Uuid::new_v4().simple()));
        let text = render_patch(&case["doc"]);
        // ---- library entry point
        let lib_root = root.join("lib");
        std::fs::create_dir_all(&lib_root).unwrap();
        materialise(&lib_root, &case["fs0"]);
        let before = listing(&lib_root);
        let r = std::panic::catch_unwind(|| {
            rip_workspace::Workspace::new(&lib_root).and_then(|w| w.apply_patch(&text))
        });
        let (ok, changed, err) = match r {
            Ok(Ok(res)) => (true, json!(res.changed_files), Value::Null),
            Ok(Err(e)) => (false, json!([]), json!(e.to_string())),
            Err(_) => (false, json!([]), json!("PANIC")),
        };
        let after = listing(&lib_root);
        // ---- the apply_patch tool on an identical tree
        let mut tool = Value::Null;
        if case["tool"].as_bool().unwrap_or(true) {
            let tool_root = root.join("tool");
            std::fs::create_dir_all(&tool_root).unwrap();
            materialise(&tool_root, &case["fs0"]);
            let runner = tool_runner(&tool_root);
            let events = run_tool(rt, &runner, "apply_patch", json!({"patch": text}), None);
            let ended = events.iter().find(|e| e["type"] == "tool_ended");
            tool = json!({
                "exit_code": ended.map(|e| e["exit_code"].clone()).unwrap_or(Value::Null),
                "changed": ended.and_then(|e| e["artifacts"].get("changed_files").cloned()).unwrap_or(Value::Null),
                "after": listing(&tool_root),
            });
        }
        out.write(&json!({"id": case["id"], "ok": ok, "changed": changed, "err": err, "before": before, "after": after,
                          "tool": tool, "patch_text": text}));
        let _ = std::fs::remove_dir_all(&root);
    }
}

// ---------------------------------------------------------------------------------------------
// pathguard (C13): every path-taking operation with every path shape, through the real router
// (so the auto-checkpoint hook sees the raw argument), inside a sentinel tree.

fn write_file(p: &Path, content: &str) {
    if let Some(parent) = p.parent() {
        let _ = std::fs::create_dir_all(parent);
    }
    let _ = std::fs::write(p, content);
}

pub struct Sentinel {
    pub base: PathBuf,
    pub outer: PathBuf,
    pub root: PathBuf,
    pub elsewhere: PathBuf,
}

impl Sentinel {
    pub fn new(base: PathBuf) -> Self {
        let outer = base.join("outer");
        let root = outer.join("root");
        let elsewhere = base.join("elsewhere");
        let s = Self { base, outer, root, elsewhere };
        s.reset();
        s
    }
    pub fn reset(&self) {
        // outside the root: canaries under the same names as the workspace files
        let sibling = self.outer.join("root-private");
        let _ = std::fs::create_dir_all(&sibling);
        for d in [&self.outer, &self.elsewhere, &sibling] {
            let tag = if d == &self.elsewhere { "DECOY-CWD" } else { "CANARY-OUTER" };
            for e in std::fs::read_dir(d).into_iter().flatten().flatten() {
                if e.path() != self.root && e.path() != sibling {
                    let _ = std::fs::remove_dir_all(e.path());
                    let _ = std::fs::remove_file(e.path());
                }
            }
            write_file(&d.join("a.txt"), &format!("{tag}-a\n"));
            write_file(&d.join("secret.txt"), &format!("{tag}-secret\n"));
            write_file(&d.join("sub/b.txt"), &format!("{tag}-b\n"));
            write_file(&d.join("ü.txt"), &format!("{tag}-u\n"));
            // a checkpoint-shaped directory: a rewind whose id is (mis)taken for a path would find a manifest here
            write_file(&d.join("sub/checkpoint.json"), PLANTED_MANIFEST);
        }
        // the workspace (the checkpoint store under .rip is kept: it is observed, not reset)
        for e in std::fs::read_dir(&self.root).into_iter().flatten().flatten() {
            if e.file_name() != ".rip" {
                let _ = std::fs::remove_dir_all(e.path());
                let _ = std::fs::remove_file(e.path());
            }
        }
        write_file(&self.root.join("a.txt"), "inside-a needle\n");
        write_file(&self.root.join("sub/b.txt"), "inside-b needle\n");
        write_file(&self.root.join("ü.txt"), "inside-u\n");
        write_file(&self.root.join("sub/checkpoint.json"), PLANTED_MANIFEST);
    }
    pub fn outside(&self) -> BTreeMap<String, String> {
        let mut out = BTreeMap::new();
        for (k, v) in util::tree(&self.outer) {
            if !k.starts_with("root") {
                out.insert(format!("outer/{k}"), v);
            }
        }
        for (k, v) in util::tree(&self.elsewhere) {
            out.insert(format!("elsewhere/{k}"), v);
        }
        out
    }
    pub fn workspace(&self) -> BTreeMap<String, String> {
        util::tree(&self.root).into_iter().filter(|(k, _)| !k.starts_with(".rip")).collect()
    }
    pub fn store(&self) -> BTreeMap<String, String> {
        util::tree(&self.root.join(".rip/checkpoints"))
    }
    pub fn store_text(&self) -> String {
        let mut s = String::new();
        for (_, v) in util::tree_contents(&self.root.join(".rip/checkpoints")) {
            if let Some(h) = v.as_str() {
                if let Ok(b) = hex::decode(h) {
                    s.push_str(&String::from_utf8_lossy(&b));
                }
            }
        }
        s
    }
}

fn comp_str(c: &str) -> String {
    match c {
        "a" => "a.txt".to_string(),
        "sub" => "sub".to_string(),
        "new" => "new.txt".to_string(),
        "long" => "L".repeat(300),
        "uni" => "ü.txt".to_string(),
        "bs_up" => "sub\\..\\..\\a.txt".to_string(),
        other => other.to_string(),
    }
}

pub fn render_path(shape: &Value, s: &Sentinel) -> String {
    let comps: Vec<String> = shape["comps"]
        .as_array()
        .map(|a| {
            a.iter()
                .map(|c| match c.as_str().unwrap_or("") {
                    // an "absolute" path written with backslashes: \<outer>\a.txt
                    "bs_abs" => format!("{}\\a.txt", s.outer.to_string_lossy().replace('/', "\\")),
                    other => comp_str(other),
                })
                .collect()
        })
        .unwrap_or_default();
    let mut p = comps.join("/");
    match shape["anchor"].as_str() {
        Some("abs_out") => p = format!("{}/{}", s.outer.to_string_lossy(), p),
        Some("abs_in") => p = format!("{}/{}", s.root.to_string_lossy(), p),
        Some("abs_sib") => p = format!("{}-private/{}", s.root.to_string_lossy(), p),
        _ => {}
    }
    if shape["trail"].as_bool().unwrap_or(false) {
        p.push('/');
    }
    p
}

async fn run_input(client: &reqwest::Client, base: &str, data: &Path, input: String) -> Vec<Value> {
    let v: Value = client.post(format!("{base}/sessions")).send().await.unwrap().json().await.unwrap_or(Value::Null);
    let id = v["session_id"].as_str().unwrap_or("").to_string();
    let _ = client.post(format!("{base}/sessions/{id}/input")).json(&json!({"input": input})).send().await;
    let deadline = std::time::Instant::now() + std::time::Duration::from_secs(10);
    loop {
        let frames = crate::runs::frames_of(data, &id);
        if frames.iter().any(|f| f["type"] == "session_ended") || std::time::Instant::now() > deadline {
            return frames;
        }
        tokio::time::sleep(std::time::Duration::from_millis(5)).await;
    }
}

pub fn engine_pathguard(rt: &tokio::runtime::Runtime, cases: Vec<Value>, out: &mut NdjsonOut) {
    let base = util::scratch_root().join(format!("pg-{}", uuid::Uuid::new_v4().simple()));
    std::fs::create_dir_all(base.join("outer/root")).unwrap();
    std::fs::create_dir_all(base.join("elsewhere")).unwrap();
    let sent = Sentinel::new(base.clone());
    let cwd_mode = cases.first().and_then(|c| c["cwd"].as_str()).unwrap_or("root").to_string();
    let _ = std::env::set_current_dir(if cwd_mode == "root" { &sent.root } else { &sent.elsewhere });
    let data = base.join("data");
    std::fs::create_dir_all(&data).unwrap();
    let ignore_variant = cases.first().and_then(|c| c["outer_ignore"].as_bool()).unwrap_or(false);
    rt.block_on(async {
        // every session keeps a 16 384-slot broadcast channel (about 5 MB) for the life of the server: a fresh authority
        // on the same store every 100 cases keeps a long run within memory
        let mut server = crate::srv::Server::start(data.clone(), sent.root.clone(), None, false).await;
        let mut basurl = server.base.clone();
        let client = reqwest::Client::new();
        for (case_no, case) in cases.iter().enumerate() {
            if case_no > 0 && case_no % 100 == 0 {
                server.stop().await;
                server = crate::srv::Server::start(data.clone(), sent.root.clone(), None, false).await;
                basurl = server.base.clone();
            }
            sent.reset();
            if ignore_variant {
                // "active" files outside the root: if they are consulted, answers change
                write_file(&sent.outer.join(".ignore"), "a.txt\nsub\nü.txt\n");
                write_file(&sent.outer.join(".gitignore"), "a.txt\nsub\n");
            }
            let op = case["op"].as_str().unwrap_or("");
            let p = render_path(&case["shape"], &sent);
            let outside0 = sent.outside();
            let ws0 = sent.workspace();
            let store0 = sent.store();
            let input = match op {
                "read" => json!({"tool": "read", "args": {"path": p}}).to_string(),
                "write" => json!({"tool": "write", "args": {"path": p, "content": "WRITTEN"}}).to_string(),
                "ls" => json!({"tool": "ls", "args": {"path": p, "recursive": true}}).to_string(),
                "grep" => json!({"tool": "grep", "args": {"pattern": "CANARY.OUTER|DECOY.CWD|needle", "path": p, "regex": true}}).to_string(),
                "apply_patch" => json!({"tool": "apply_patch", "args": {"patch": format!("*** Begin Patch\n*** Add File: {p}\n+PATCHED\n*** End Patch")}}).to_string(),
                "ckpt_create" => json!({"checkpoint": {"action": "create", "label": "l", "files": [p]}}).to_string(),
                "ckpt_rewind" => json!({"checkpoint": {"action": "rewind", "id": p}}).to_string(),
                "shell_cwd" => json!({"tool": "bash", "args": {"command": "pwd; cat secret.txt 2>/dev/null; echo probe > cwd_probe.txt", "cwd": p}}).to_string(),
                _ => String::new(),
            };
            let mut frames: Vec<Value> = Vec::new();
            if op == "task_cwd" {
                let r = client
                    .post(format!("{basurl}/tasks"))
                    .json(&json!({"tool": "bash", "args": {"command": "pwd; cat secret.txt 2>/dev/null; echo probe > task_probe.txt", "cwd": p}}))
                    .send()
                    .await;
                if let Ok(resp) = r {
                    let st = resp.status().as_u16();
                    let v: Value = resp.json().await.unwrap_or(Value::Null);
                    frames.push(json!({"type": "http", "status": st}));
                    if let Some(id) = v["task_id"].as_str() {
                        let deadline = std::time::Instant::now() + std::time::Duration::from_secs(10);
                        loop {
                            let fr = crate::runs::frames_of(&data, id);
                            let done = fr.iter().any(|f| f["type"] == "tool_task_status" && f["status"] != "running" && f["status"] != "queued");
                            if done || std::time::Instant::now() > deadline {
                                frames.extend(fr);
                                break;
                            }
                            tokio::time::sleep(std::time::Duration::from_millis(5)).await;
                        }
                    }
                }
            } else {
                frames = run_input(&client, &basurl, &data, input).await;
            }
            let text = serde_json::to_string(&frames).unwrap_or_default();
            // did the operation itself report failure?
            let failed = frames.iter().any(|f| {
                f["type"] == "tool_failed"
                    || f["type"] == "checkpoint_failed"
                    || (f["type"] == "tool_ended" && f["exit_code"] != 0)
                    || (f["type"] == "http" && f["status"] != 201)
                    || (f["type"] == "tool_task_status" && f["status"] == "failed")
            });
            let outside1 = sent.outside();
            let ws1 = sent.workspace();
            let store1 = sent.store();
            let mut rewind = Value::Null;
            if op == "ckpt_create" && !failed {
                // edit everything, then rewind: nothing outside may come back
                if let Some(id) = frames.iter().find(|f| f["type"] == "checkpoint_created").and_then(|f| f["checkpoint_id"].as_str()) {
                    for d in [&sent.outer, &sent.elsewhere] {
                        for n in ["a.txt", "secret.txt", "sub/b.txt", "ü.txt"] {
                            write_file(&d.join(n), "CHANGED-OUTSIDE\n");
                        }
                    }
                    let before = sent.outside();
                    // a rewind acts on the session that created the checkpoint: same session needed; the
                    // router starts a fresh run per input on the same session id
                    let sid = frames[0]["session_id"].as_str().unwrap_or("").to_string();
                    let _ = client
                        .post(format!("{basurl}/sessions/{sid}/input"))
                        .json(&json!({"input": json!({"checkpoint": {"action": "rewind", "id": id}}).to_string()}))
                        .send()
                        .await;
                    tokio::time::sleep(std::time::Duration::from_millis(60)).await;
                    let after = sent.outside();
                    rewind = json!({"outside_changed": before != after,
                                    "diff": after.iter().filter(|(k, v)| before.get(*k) != Some(*v)).map(|(k, _)| k.clone()).collect::<Vec<_>>()});
                }
            }
            let store_text = sent.store_text();
            out.write(&json!({
                "id": case["id"], "path": p, "failed": failed,
                "outside_changed": outside0 != outside1,
                "outside_diff": outside1.iter().filter(|(k, v)| outside0.get(*k) != Some(*v)).map(|(k, _)| k.clone())
                    .chain(outside0.keys().filter(|k| !outside1.contains_key(*k)).cloned()).collect::<Vec<_>>(),
                "ws_changed": ws0 != ws1, "store_changed": store0 != store1,
                "leak_output": text.contains("CANARY-OUTER") || text.contains("DECOY-CWD"),
                "leak_store": store_text.contains("CANARY-OUTER") || store_text.contains("DECOY-CWD") || store_text.contains("CHANGED-OUTSIDE"),
                "rewind": rewind,
                "answer": frames.iter().filter(|f| f["type"] == "tool_stdout").map(|f| f["chunk"].clone()).collect::<Vec<_>>(),
            }));
            // keep the store small
            let _ = std::fs::remove_dir_all(sent.root.join(".rip/checkpoints"));
        }
        server.stop().await;
    });
    let _ = std::env::set_current_dir("/");
    let _ = std::fs::remove_dir_all(&base);
}

// ---------------------------------------------------------------------------------------------
// ckpt (C14): checkpoint / edit / rewind sequences.  "direct" drives the real Workspace and the
// real ToolRunner (auto checkpoints) with a thin hook adapter; "router" sends the same sequence
// as session inputs through the real router (real WorkspaceCheckpointHook).

struct HookAdapter {
    ws: rip_workspace::Workspace,
}

impl rip_tools::CheckpointHook for HookAdapter {
    fn create(&self, request: rip_tools::CheckpointRequest) -> Result<rip_tools::CheckpointRecord, String> {
        let cp = self
            .ws
            .create_checkpoint(&request.session_id, request.label, &request.files)
            .map_err(|e| format!("checkpoint create failed: {e}"))?;
        Ok(rip_tools::CheckpointRecord {
            id: cp.id,
            label: cp.label,
            created_at_ms: cp.created_at_ms,
            files: cp.files.iter().map(|f| f.path.clone()).collect(),
        })
    }
    fn rewind(&self, session_id: &str, checkpoint_id: &str) -> Result<rip_tools::CheckpointRewindRecord, String> {
        let cps = self.ws.list_checkpoints(session_id).map_err(|e| format!("checkpoint list failed: {e}"))?;
        let cp = cps.into_iter().find(|c| c.id == checkpoint_id).ok_or_else(|| "checkpoint not found".to_string())?;
        self.ws
            .rewind_to_checkpoint(session_id, checkpoint_id)
            .map_err(|e| format!("checkpoint rewind failed: {e}"))?;
        Ok(rip_tools::CheckpointRewindRecord {
            id: cp.id,
            label: cp.label,
            files: cp.files.iter().map(|f| f.path.clone()).collect(),
        })
    }
}

fn ckpt_materialise(root: &Path, fs: &Value) {
    if let Some(o) = fs.as_object() {
        for (p, c) in o {
            match c.as_str() {
                Some("absent") | None => {}
                Some("dir") => {
                    let _ = std::fs::create_dir_all(root.join(p));
                }
                Some(v) => write_file(&root.join(p), &format!("content-{v}\n")),
            }
        }
    }
}

fn ckpt_observe(root: &Path, paths: &[String]) -> Value {
    let mut m = serde_json::Map::new();
    for p in paths {
        let full = root.join(p);
        let v = if full.is_dir() {
            "dir".to_string()
        } else if full.is_file() {
            let s = std::fs::read_to_string(&full).unwrap_or_default();
            s.trim_end().strip_prefix("content-").map(str::to_string).unwrap_or(format!("?{s}"))
        } else {
            "absent".to_string()
        };
        m.insert(p.clone(), json!(v));
    }
    Value::Object(m)
}

fn patch_for_at(o: &Value, root: &Path) -> String {
    let p = o["p"].as_str().unwrap_or("");
    if o["k"] == "patch_move" {
        // a pure move: one context-only hunk (the file's first line), so the content is unchanged
        let line = std::fs::read_to_string(root.join(p)).unwrap_or_default().lines().next().unwrap_or("missing").to_string();
        return format!("*** Begin Patch\n*** Update File: {p}\n*** Move to: {}\n@@\n {line}\n*** End Patch", o["q"].as_str().unwrap_or(""));
    }
    if o["k"] == "patch_upd" {
        let line = std::fs::read_to_string(root.join(p)).unwrap_or_default().lines().next().unwrap_or("missing").to_string();
        return format!("*** Begin Patch\n*** Update File: {p}\n@@\n-{line}\n+content-{}\n*** End Patch", o["v"].as_str().unwrap_or(""));
    }
    patch_for(o)
}

fn patch_for(o: &Value) -> String {
    let p = o["p"].as_str().unwrap_or("");
    match o["k"].as_str() {
        Some("patch_add") => format!("*** Begin Patch\n*** Add File: {p}\n+content-{}\n*** End Patch", o["v"].as_str().unwrap_or("")),
        Some("patch_del") => format!("*** Begin Patch\n*** Delete File: {p}\n*** End Patch"),
        // move: an update with a no-op hunk (context only) and a destination
        _ => format!("*** Begin Patch\n*** Update File: {p}\n*** Move to: {}\n@@\n+\n*** End Patch", o["q"].as_str().unwrap_or("")),
    }
}

pub fn engine_ckpt(rt: &tokio::runtime::Runtime, cases: Vec<Value>, out: &mut NdjsonOut) {
    let base = util::scratch_root().join(format!("ck-{}", uuid::Uuid::new_v4().simple()));
    let elsewhere = base.join("elsewhere");
    std::fs::create_dir_all(&elsewhere).unwrap();
    let cwd_mode = cases.first().and_then(|c| c["cwd"].as_str()).unwrap_or("root").to_string();
    let paths: Vec<String> = vec!["f".into(), "g".into(), "d/h".into()];
    for p in &paths {
        write_file(&elsewhere.join(p), "content-DECOY\n");
    }
    for case in cases {
        let root = base.join(format!("ws-{}", uuid::Uuid::new_v4().simple()));
        std::fs::create_dir_all(&root).unwrap();
        ckpt_materialise(&root, &case["fs0"]);
        plant_bystanders(&root, &paths);
        let _ = std::env::set_current_dir(if cwd_mode == "root" { &root } else { &elsewhere });
        let mode = case["mode"].as_str().unwrap_or("direct");
        let steps = case["steps"].as_array().cloned().unwrap_or_default();
        let mut obs = Vec::new();
        let mut cp_ids: Vec<String> = Vec::new();
        if mode == "direct" {
            let registry = Arc::new(ToolRegistry::default());
            register_builtin_tools(&registry, BuiltinToolConfig { workspace_root: root.clone(), ..BuiltinToolConfig::default() });
            let hook = Arc::new(HookAdapter { ws: rip_workspace::Workspace::new(&root).unwrap() });
            let runner = ToolRunner::with_checkpoint_hook(registry, 2, hook);
            let mut seq = 0u64;
            for st in &steps {
                let o = &st["o"];
                let k = o["k"].as_str().unwrap_or("");
                let mut events: Vec<Value> = Vec::new();
                let to_vals = |ev: Vec<rip_kernel::Event>| ev.iter().map(|e| serde_json::to_value(e).unwrap_or(Value::Null)).collect::<Vec<_>>();
                match k {
                    "create" => {
                        let files: Vec<PathBuf> = o["paths"].as_array().cloned().unwrap_or_default().iter()
                            .map(|p| if o["how"] == "abs" { root.join(p.as_str().unwrap_or("")) } else { PathBuf::from(p.as_str().unwrap_or("")) }).collect();
                        events = to_vals(runner.create_checkpoint("s", &mut seq, "manual".into(), files));
                    }
                    "write" => {
                        events = to_vals(rt.block_on(runner.run("s", &mut seq, ToolInvocation {
                            name: "write".into(), args: json!({"path": o["p"], "content": format!("content-{}\n", o["v"].as_str().unwrap_or(""))}), timeout_ms: None })));
                    }
                    "patch_add" | "patch_upd" | "patch_del" | "patch_move" => {
                        events = to_vals(rt.block_on(runner.run("s", &mut seq, ToolInvocation {
                            name: "apply_patch".into(), args: json!({"patch": patch_for_at(o, &root)}), timeout_ms: None })));
                    }
                    "raw_delete" => { let _ = std::fs::remove_file(root.join(o["p"].as_str().unwrap_or(""))); }
                    "raw_mkdir" => { let _ = std::fs::create_dir_all(root.join(o["p"].as_str().unwrap_or(""))); }
                    "raw_dir_to_file" => {
                        // the directory is replaced by a plain file: restoring anything below it must fail
                        let d = root.join(o["p"].as_str().unwrap_or(""));
                        let _ = std::fs::remove_dir_all(&d);
                        let _ = std::fs::write(&d, "now a file\n");
                    }
                    "sabotage_store" => {
                        // the stored copy of one covered file disappears from checkpoint i (its manifest stays)
                        let i = o["i"].as_u64().unwrap_or(1) as usize;
                        if let Some(id) = cp_ids.get(i - 1) {
                            let want = o["p"].as_str().unwrap_or("").to_string();
                            let store = root.join(".rip/checkpoints");
                            let mut stack = vec![store];
                            while let Some(dir) = stack.pop() {
                                for e in std::fs::read_dir(&dir).into_iter().flatten().flatten() {
                                    let p = e.path();
                                    if p.is_dir() {
                                        stack.push(p);
                                    } else if p.to_string_lossy().contains(id.as_str()) && p.file_name().map(|n| n != "checkpoint.json").unwrap_or(false)
                                        && p.to_string_lossy().replace('\\', "/").ends_with(&want)
                                    {
                                        let _ = std::fs::remove_file(&p);
                                    }
                                }
                            }
                        }
                    }
                    "rewind" => {
                        let i = o["i"].as_u64().unwrap_or(0) as usize;
                        let id = if i == 0 { "no-such-checkpoint".to_string() } else { cp_ids.get(i - 1).cloned().unwrap_or_default() };
                        events = to_vals(runner.rewind_checkpoint("s", &mut seq, &id));
                    }
                    _ => {}
                }
                step_observe(&events, &mut cp_ids, &root, &paths, &mut obs);
            }
        } else {
            let data = base.join(format!("data-{}", uuid::Uuid::new_v4().simple()));
            std::fs::create_dir_all(&data).unwrap();
            let root2 = root.clone();
            let steps2 = steps.clone();
            let paths2 = paths.clone();
            let (o2, ids2) = rt.block_on(async move {
                let mut obs = Vec::new();
                let mut cp_ids: Vec<String> = Vec::new();
                let server = crate::srv::Server::start(data.clone(), root2.clone(), None, false).await;
                let basurl = server.base.clone();
                let client = reqwest::Client::new();
                let v: Value = client.post(format!("{basurl}/sessions")).send().await.unwrap().json().await.unwrap_or(Value::Null);
                let sid = v["session_id"].as_str().unwrap_or("").to_string();
                for st in &steps2 {
                    let o = &st["o"];
                    let k = o["k"].as_str().unwrap_or("");
                    let input = match k {
                        "create" => {
                            let files: Vec<String> = o["paths"].as_array().cloned().unwrap_or_default().iter()
                                .map(|p| if o["how"] == "abs" { root2.join(p.as_str().unwrap_or("")).to_string_lossy().to_string() } else { p.as_str().unwrap_or("").to_string() }).collect();
                            Some(json!({"checkpoint": {"action": "create", "label": "manual", "files": files}}).to_string())
                        }
                        "write" => Some(json!({"tool": "write", "args": {"path": o["p"], "content": format!("content-{}\n", o["v"].as_str().unwrap_or(""))}}).to_string()),
                        "patch_add" | "patch_upd" | "patch_del" | "patch_move" => Some(json!({"tool": "apply_patch", "args": {"patch": patch_for_at(o, &root2)}}).to_string()),
                        "rewind" => {
                            let i = o["i"].as_u64().unwrap_or(0) as usize;
                            let id = if i == 0 { "no-such-checkpoint".to_string() } else { cp_ids.get(i - 1).cloned().unwrap_or_default() };
                            Some(json!({"checkpoint": {"action": "rewind", "id": id}}).to_string())
                        }
                        "raw_delete" => { let _ = std::fs::remove_file(root2.join(o["p"].as_str().unwrap_or(""))); None }
                        "raw_mkdir" => { let _ = std::fs::create_dir_all(root2.join(o["p"].as_str().unwrap_or(""))); None }
                        _ => None,
                    };
                    let mut events = Vec::new();
                    if let Some(input) = input {
                        let n0 = crate::runs::frames_of(&data, &sid).len();
                        let _ = client.post(format!("{basurl}/sessions/{sid}/input")).json(&json!({"input": input})).send().await;
                        let deadline = std::time::Instant::now() + std::time::Duration::from_secs(8);
                        loop {
                            let fr = crate::runs::frames_of(&data, &sid);
                            if fr.len() > n0 && fr[n0..].iter().any(|f| f["type"] == "session_ended") {
                                events = fr[n0..].to_vec();
                                break;
                            }
                            if std::time::Instant::now() > deadline { break; }
                            tokio::time::sleep(std::time::Duration::from_millis(4)).await;
                        }
                    }
                    step_observe(&events, &mut cp_ids, &root2, &paths2, &mut obs);
                }
                server.stop().await;
                let _ = std::fs::remove_dir_all(&data);
                (obs, cp_ids)
            });
            obs = o2;
            cp_ids = ids2;
        }
        let _ = cp_ids;
        out.write(&json!({"id": case["id"], "obs": obs}));
        let _ = std::env::set_current_dir("/");
        let _ = std::fs::remove_dir_all(&root);
    }
    let _ = std::fs::remove_dir_all(&base);
}

/// Files next to the model's paths that no operation names and no checkpoint covers (editor / tool leftovers with the same stem).
const BYSTANDER_SUFFIXES: [&str; 6] = [".tmp", ".bak", ".orig", "~", ".swp", ".lock"];

fn plant_bystanders(root: &Path, paths: &[String]) {
    for p in paths {
        for suf in BYSTANDER_SUFFIXES {
            let full = root.join(format!("{p}{suf}"));
            if let Some(parent) = full.parent() {
                if std::fs::create_dir_all(parent).is_err() {
                    continue;
                }
            }
            write_file(&full, &format!("bystander-{p}{suf}\n"));
        }
    }
}

/// (bystanders that changed or vanished, entries that are neither model paths nor bystanders nor the store)
fn observe_bystanders(root: &Path, paths: &[String]) -> (Vec<String>, Vec<String>) {
    let mut changed = Vec::new();
    let mut known: std::collections::BTreeSet<String> = paths.iter().cloned().collect();
    for p in paths {
        for suf in BYSTANDER_SUFFIXES {
            let name = format!("{p}{suf}");
            let full = root.join(&name);
            let planted = full.parent().map(|d| d.is_dir()).unwrap_or(false) || full.exists();
            if planted && std::fs::read_to_string(&full).ok() != Some(format!("bystander-{name}\n")) {
                // a parent that was never a directory (the model made it a file) means the bystander was never planted
                if full.parent().map(|d| d.is_dir()).unwrap_or(false) {
                    changed.push(name.clone());
                }
            }
            known.insert(name);
        }
    }
    let mut strays = Vec::new();
    for dir in ["", "d"] {
        if let Ok(rd) = std::fs::read_dir(root.join(dir)) {
            for e in rd.flatten() {
                let n = e.file_name().to_string_lossy().to_string();
                let rel = if dir.is_empty() { n.clone() } else { format!("{dir}/{n}") };
                if rel == ".rip" || rel == "d" || known.contains(&rel) {
                    continue;
                }
                strays.push(rel);
            }
        }
    }
    (changed, strays)
}

fn step_observe(events: &[Value], cp_ids: &mut Vec<String>, root: &Path, paths: &[String], obs: &mut Vec<Value>) {
    let kinds: Vec<String> = events.iter().map(|e| e["type"].as_str().unwrap_or("").to_string()).collect();
    let created: Vec<&Value> = events.iter().filter(|e| e["type"] == "checkpoint_created").collect();
    for c in &created {
        cp_ids.push(c["checkpoint_id"].as_str().unwrap_or("").to_string());
    }
    let ok = !events.iter().any(|e| {
        e["type"] == "checkpoint_failed" && kinds.iter().all(|k| k != "tool_started")
            || e["type"] == "tool_failed"
            || (e["type"] == "tool_ended" && e["exit_code"] != 0)
    });
    // a checkpoint_created(auto) must precede tool_started
    let auto_before_tool = match (kinds.iter().position(|k| k == "checkpoint_created"), kinds.iter().position(|k| k == "tool_started")) {
        (Some(c), Some(t)) => c < t,
        (None, Some(_)) => false,
        _ => true,
    };
    let (by_changed, strays) = observe_bystanders(root, paths);
    // the directory beside the workspace that holds decoy files of the same names (the process's working directory in the
    // "elsewhere" mode): nothing in it may ever change
    let mut outside_changed: Vec<String> = Vec::new();
    if let Some(elsewhere) = root.parent().map(|b| b.join("elsewhere")) {
        for p in paths {
            if std::fs::read_to_string(elsewhere.join(p)).ok().as_deref() != Some("content-DECOY\n") {
                outside_changed.push(format!("elsewhere/{p}"));
            }
        }
        for dir in ["", "d"] {
            for e in std::fs::read_dir(elsewhere.join(dir)).into_iter().flatten().flatten() {
                let n = e.file_name().to_string_lossy().to_string();
                let rel = if dir.is_empty() { n } else { format!("{dir}/{n}") };
                if rel != "d" && !paths.contains(&rel) {
                    outside_changed.push(format!("elsewhere/{rel} (new)"));
                }
            }
        }
    }
    obs.push(json!({
        "outside_changed": outside_changed,
        "ok": ok, "fs": ckpt_observe(root, paths), "ncp": cp_ids.len(), "kinds": kinds, "auto_before_tool": auto_before_tool,
        "by_changed": by_changed, "strays": strays,
        "auto_files": created.first().map(|c| c["files"].clone()).unwrap_or(Value::Null),
        "auto": created.first().map(|c| c["auto"].clone()).unwrap_or(Value::Null),
    }));
}
