//! Engines over the workspace file system: patch application (C12), path arguments (C13),
//! checkpoints / rewind (C14).
use std::collections::BTreeMap;
use std::path::{Path, PathBuf};
use std::sync::Arc;

use rip_tools::{register_builtin_tools, BuiltinToolConfig, ToolInvocation, ToolRegistry, ToolRunner};
use serde_json::{json, Value};

use crate::util::{self, NdjsonOut};

pub fn content_bytes(c: &Value) -> Option<Vec<u8>> {
    match c["t"].as_str() {
        Some("text") => {
            let eol = if c["eol"] == "crlf" { "\r\n" } else { "\n" };
            let lines: Vec<String> = c["lines"]
                .as_array()
                .map(|a| a.iter().map(|l| l.as_str().unwrap_or("").to_string()).collect())
                .unwrap_or_default();
            if lines.is_empty() {
                return Some(Vec::new());
            }
            let mut s = lines.join(eol);
            if c["nl"].as_bool().unwrap_or(false) {
                s.push_str(eol);
            }
            Some(s.into_bytes())
        }
        Some("bin") => Some(vec![0xff, 0xfe, 0x00, 0x80]),
        _ => None,
    }
}

pub fn materialise(root: &Path, fs: &Value) {
    if let Some(o) = fs.as_object() {
        for (p, c) in o {
            let path = root.join(p);
            match c["t"].as_str() {
                Some("dir") => {
                    let _ = std::fs::create_dir_all(&path);
                }
                Some("absent") | None => {}
                _ => {
                    if let Some(parent) = path.parent() {
                        let _ = std::fs::create_dir_all(parent);
                    }
                    let _ = std::fs::write(&path, content_bytes(c).unwrap_or_default());
                }
            }
        }
    }
}

/// files (hex bytes) and directories below root, without the `.rip` metadata directory
pub fn listing(root: &Path) -> BTreeMap<String, Value> {
    util::tree_contents(root)
        .into_iter()
        .filter(|(k, _)| !k.starts_with(".rip"))
        .collect()
}

fn render_hunk(h: &Value, out: &mut String) {
    out.push_str("@@\n");
    let b: Vec<&str> = h["b"].as_array().map(|a| a.iter().filter_map(|x| x.as_str()).collect()).unwrap_or_default();
    let a: Vec<&str> = h["a"].as_array().map(|a| a.iter().filter_map(|x| x.as_str()).collect()).unwrap_or_default();
    // a common prefix is rendered as context lines
    let mut k = 0;
    while k < b.len() && k < a.len() && b[k] == a[k] {
        out.push_str(&format!(" {}\n", b[k]));
        k += 1;
    }
    for l in &b[k..] {
        out.push_str(&format!("-{l}\n"));
    }
    for l in &a[k..] {
        out.push_str(&format!("+{l}\n"));
    }
}

pub fn render_patch(doc: &Value) -> String {
    let ops = doc.as_array().cloned().unwrap_or_default();
    let bad: Vec<&str> = ops.iter().filter(|o| o["k"] == "bad").filter_map(|o| o["why"].as_str()).collect();
    let mut out = String::new();
    if !bad.contains(&"no_header") {
        out.push_str("*** Begin Patch\n");
    }
    for o in &ops {
        match o["k"].as_str() {
            Some("add") => {
                out.push_str(&format!("*** Add File: {}\n", o["p"].as_str().unwrap_or("")));
                for l in o["lines"].as_array().cloned().unwrap_or_default() {
                    out.push_str(&format!("+{}\n", l.as_str().unwrap_or("")));
                }
            }
            Some("del") => out.push_str(&format!("*** Delete File: {}\n", o["p"].as_str().unwrap_or(""))),
            Some("upd") => {
                out.push_str(&format!("*** Update File: {}\n", o["p"].as_str().unwrap_or("")));
                if o["mv"] != "none" {
                    out.push_str(&format!("*** Move to: {}\n", o["mv"].as_str().unwrap_or("")));
                }
                for h in o["hs"].as_array().cloned().unwrap_or_default() {
                    render_hunk(&h, &mut out);
                }
            }
            Some("bad") => match o["why"].as_str().unwrap_or("") {
                "bad_prefix" => out.push_str("*** Update File: f\n@@\nxoops\n"),
                "abs_path" => out.push_str("*** Add File: /tmp/ripverif-abs-should-not-exist\n+x\n"),
                "dotdot" => out.push_str("*** Add File: ../ripverif-escape\n+x\n"),
                "empty_path" => out.push_str("*** Add File: \n+x\n"),
                "no_hunks" => out.push_str("*** Update File: g\n"),
                "add_no_plus" => out.push_str("*** Add File: zz\nplain line\n"),
                "garbage_line" => out.push_str("hello world\n"),
                _ => {}
            },
            _ => {}
        }
    }
    if !bad.contains(&"no_footer") {
        out.push_str("*** End Patch");
    }
    out
}

pub fn tool_runner(root: &Path) -> ToolRunner {
    let registry = Arc::new(ToolRegistry::default());
    register_builtin_tools(
        &registry,
        BuiltinToolConfig {
            workspace_root: root.to_path_buf(),
            ..BuiltinToolConfig::default()
        },
    );
    ToolRunner::new(registry, 2)
}

pub fn run_tool(rt: &tokio::runtime::Runtime, runner: &ToolRunner, name: &str, args: Value, timeout_ms: Option<u64>) -> Vec<Value> {
    let mut seq = 0u64;
    let events = rt.block_on(runner.run(
        "verif-session",
        &mut seq,
        ToolInvocation {
            name: name.to_string(),
            args,
            timeout_ms,
        },
    ));
    events.iter().map(|e| serde_json::to_value(e).unwrap_or(Value::Null)).collect()
}

pub fn engine_patch(rt: &tokio::runtime::Runtime, cases: Vec<Value>, out: &mut NdjsonOut) {
    let base = util::scratch_root();
    for case in cases {
        let root = base.join(format!("patch-{}", uuid::Uuid::new_v4().simple()));
        let text = render_patch(&case["doc"]);
        // ---- library entry point
        let lib_root = root.join("lib");
        std::fs::create_dir_all(&lib_root).unwrap();
        materialise(&lib_root, &case["fs0"]);
        let before = listing(&lib_root);
        let r = std::panic::catch_unwind(|| {
            rip_workspace::Workspace::new(&lib_root).and_then(|w| w.apply_patch(&text))
        });
        let (ok, changed, err) = match r {
            Ok(Ok(res)) => (true, json!(res.changed_files), Value::Null),
            Ok(Err(e)) => (false, json!([]), json!(e.to_string())),
            Err(_) => (false, json!([]), json!("PANIC")),
        };
        let after = listing(&lib_root);
        // ---- the apply_patch tool on an identical tree
        let mut tool = Value::Null;
        if case["tool"].as_bool().unwrap_or(true) {
            let tool_root = root.join("tool");
            std::fs::create_dir_all(&tool_root).unwrap();
            materialise(&tool_root, &case["fs0"]);
            let runner = tool_runner(&tool_root);
            let events = run_tool(rt, &runner, "apply_patch", json!({"patch": text}), None);
            let ended = events.iter().find(|e| e["type"] == "tool_ended");
            tool = json!({
                "exit_code": ended.map(|e| e["exit_code"].clone()).unwrap_or(Value::Null),
                "changed": ended.and_then(|e| e["artifacts"].get("changed_files").cloned()).unwrap_or(Value::Null),
                "after": listing(&tool_root),
            });
        }
        out.write(&json!({"id": case["id"], "ok": ok, "changed": changed, "err": err, "before": before, "after": after,
                          "tool": tool, "patch_text": text}));
        let _ = std::fs::remove_dir_all(&root);
    }
}
