//! C20 engine: generated frame sequences are folded by the real TuiState / FrameStore; the
//! observations the model predicts are returned, and the state is rendered at every width.
use ratatui::backend::TestBackend;
use ratatui::Terminal;
use rip_kernel::{Event, EventKind};
use rip_tui::{render, RenderMode, ToolStatus, TuiState};
use serde_json::{json, Value};

use crate::util::NdjsonOut;

fn payload(n: u64, mb: u64) -> String {
    if mb > 0 {
        // shift the multi-byte pattern by 0..3 ASCII bytes so that every truncation offset is hit off a boundary
        // (the same shift is appended, because bounds that keep a tail measure the cut from the END)
        let mut s = "a".repeat((mb - 1) as usize);
        s.extend("é⏸⚠".chars().cycle().take(n as usize));
        s.push_str(&"a".repeat((mb - 1) as usize));
        s
    } else {
        "a".repeat(n as usize)
    }
}

fn event_of(f: &Value, mb: u64, idx: usize) -> Event {
    let n = f["n"].as_u64().unwrap_or(0);
    let id = f["id"].as_str().unwrap_or("-").to_string();
    let q = f["q"].as_i64().unwrap_or(0);
    let seq = if q == 9 { u64::MAX } else { q as u64 };
    let kind = match f["k"].as_str().unwrap_or("other") {
        "start" => EventKind::SessionStarted { input: payload(n, mb) },
        "delta" => EventKind::OutputTextDelta { delta: payload(n, mb) },
        "end" => EventKind::SessionEnded { reason: "completed".into() },
        "tstart" => EventKind::ToolStarted { tool_id: id, name: "bash".into(), args: json!({"command": payload(3, mb)}), timeout_ms: None },
        "tout" => EventKind::ToolStdout { tool_id: id, chunk: payload(n * 2000, mb) },
        "tend" => EventKind::ToolEnded { tool_id: id, exit_code: 0, duration_ms: 1, artifacts: Some(json!({"artifact_id": "a".repeat(64)})) },
        "tfail" => EventKind::ToolFailed { tool_id: id, error: payload(90, 1) },
        _ => EventKind::CheckpointFailed { action: rip_kernel::CheckpointAction::Create, error: payload(5, mb) },
    };
    Event {
        id: format!("e{idx}"),
        session_id: if idx % 2 == 0 { "s1".into() } else { "s2".into() },
        timestamp_ms: 1000 + idx as u64,
        seq,
        kind,
    }
}

fn observe(state: &TuiState, probes: &[i64]) -> Value {
    let window: Vec<Value> = state.frames.iter().map(|e| json!(if e.seq == u64::MAX { 9 } else { e.seq as i64 })).collect();
    let mut get = serde_json::Map::new();
    for q in probes {
        let seq = if *q == 9 { u64::MAX } else { *q as u64 };
        let r = state.frames.get_by_seq(seq).map(|e| if e.seq == u64::MAX { 9 } else { e.seq as i64 });
        get.insert(q.to_string(), json!(r.unwrap_or(-1)));
        // neighbours: must be "that frame or nothing" as well
        for d in [seq.wrapping_add(1), seq.wrapping_sub(1)] {
            if let Some(e) = state.frames.get_by_seq(d) {
                if e.seq != d {
                    get.insert(format!("wrong@{d}"), json!(e.seq.to_string()));
                }
            }
        }
    }
    let mut tools = serde_json::Map::new();
    for t in ["t1", "t2"] {
        let st = match state.tools.get(t).map(|x| &x.status) {
            None => "unknown",
            Some(ToolStatus::Running) => "running",
            Some(ToolStatus::Ended { .. }) => "ended",
            Some(ToolStatus::Failed { .. }) => "failed",
        };
        tools.insert(t.to_string(), json!(st));
    }
    let max_preview = state.tools.values().map(|t| t.stdout_preview.len().max(t.stderr_preview.len())).max().unwrap_or(0);
    json!({"window": window, "get": get, "tools": tools, "outlen": state.output_text.len(), "max_preview": max_preview,
           "selected_ok": state.selected_event().map(|e| Some(e.seq) == state.selected_seq).unwrap_or(true),
           "debug": format!("{:?}|{:?}|{:?}|{:?}", state.tools, state.tasks, state.jobs, state.artifacts)})
}

fn render_all(state: &mut TuiState) -> Vec<Value> {
    let mut panics = Vec::new();
    for stalled in [false, true] {
        state.set_now_ms(if stalled { 1_000_000 } else { 1001 });
        for raw in [false, true] {
            if raw {
                state.toggle_output_view();
            }
            for overlay in 0..3 {
                match overlay {
                    1 => state.toggle_activity_overlay(),
                    2 => state.toggle_tasks_overlay(),
                    _ => {}
                }
                for mode in [RenderMode::Json, RenderMode::Decoded] {
                    for (w, h) in (1u16..=44).flat_map(|w| [(w, 12u16), (w, 30u16)]).chain([(80, 3), (80, 1), (2, 2)]) {
                        let st: &TuiState = state;
                        let r = std::panic::catch_unwind(std::panic::AssertUnwindSafe(|| {
                            let mut term = Terminal::new(TestBackend::new(w, h)).unwrap();
                            let _ = term.draw(|f| render(f, st, mode, "input ⏸"));
                        }));
                        if r.is_err() {
                            panics.push(json!({"w": w, "h": h, "mode": format!("{mode:?}"), "raw": raw, "overlay": overlay, "stalled": stalled}));
                        }
                    }
                }
                state.close_overlay();
            }
            if raw {
                state.toggle_output_view();
            }
        }
    }
    panics
}

pub fn engine_surface(cases: Vec<Value>, out: &mut NdjsonOut) {
    std::panic::set_hook(Box::new(|_| {}));
    for case in cases {
        let frames = case["frames"].as_array().cloned().unwrap_or_default();
        let cap = case["cap"].as_u64().unwrap_or(2) as usize;
        let maxout = case["maxout"].as_u64().unwrap_or(8) as usize;
        let mb = case["mb"].as_u64().unwrap_or(0);
        let probes: Vec<i64> = case["probes"].as_array().map(|a| a.iter().filter_map(|x| x.as_i64()).collect()).unwrap_or_default();
        let run = || {
            let mut state = TuiState::new(cap, maxout);
            let mut panicked = Value::Null;
            for (i, f) in frames.iter().enumerate() {
                let ev = event_of(f, mb, i);
                let r = std::panic::catch_unwind(std::panic::AssertUnwindSafe(|| state.update(ev)));
                if r.is_err() {
                    panicked = json!(i);
                    break;
                }
            }
            (state, panicked)
        };
        let (mut s1, p1) = run();
        let (s2, _p2) = run();
        let o1 = observe(&s1, &probes);
        let o2 = observe(&s2, &probes);
        let render_panics = if case["render"].as_bool().unwrap_or(true) { render_all(&mut s1) } else { Vec::new() };
        out.write(&json!({"id": case["id"], "obs": o1, "deterministic": o1 == o2, "update_panic": p1, "render_panics": render_panics}));
    }
}


// surface_frames: real frames of every type (as the system wrote them, plus payload mutants that keep them
// well-formed) folded one at a time into a fresh TuiState and rendered in every mode: total = no panic.
pub fn engine_surface_frames(cases: Vec<Value>, out: &mut NdjsonOut) {
    std::panic::set_hook(Box::new(|_| {}));
    for case in cases {
        let frames = case["frames"].as_array().cloned().unwrap_or_default();
        let mut parsed = 0u64;
        let mut problems = Vec::new();
        for (i, f) in frames.iter().enumerate() {
            let Ok(ev) = serde_json::from_value::<Event>(f.clone()) else { continue };
            parsed += 1;
            let mut state = TuiState::new(64, 4096);
            // a little context first, so that the frame is not the only thing on screen
            let ctx = Event { id: "ctx".into(), session_id: ev.session_id.clone(), timestamp_ms: 1, seq: 0, kind: EventKind::SessionStarted { input: "q".into() } };
            let _ = std::panic::catch_unwind(std::panic::AssertUnwindSafe(|| state.update(ctx)));
            let r = std::panic::catch_unwind(std::panic::AssertUnwindSafe(|| state.update(ev.clone())));
            if r.is_err() {
                problems.push(json!({"frame": i, "what": "update panicked"}));
                continue;
            }
            let mut bad = Vec::new();
            for raw in [false, true] {
                if raw {
                    state.toggle_output_view();
                }
                for overlay in 0..3 {
                    match overlay {
                        1 => state.toggle_activity_overlay(),
                        2 => state.toggle_tasks_overlay(),
                        _ => {}
                    }
                    for mode in [RenderMode::Json, RenderMode::Decoded] {
                        for (w, h) in [(80u16, 30u16), (31, 12), (140, 50)] {
                            let st: &TuiState = &state;
                            let r = std::panic::catch_unwind(std::panic::AssertUnwindSafe(|| {
                                let mut term = Terminal::new(TestBackend::new(w, h)).unwrap();
                                let _ = term.draw(|fr| render(fr, st, mode, ""));
                            }));
                            if r.is_err() && bad.len() < 3 {
                                bad.push(json!({"w": w, "h": h, "mode": format!("{mode:?}"), "raw": raw, "overlay": overlay}));
                            }
                        }
                    }
                    state.close_overlay();
                }
                if raw {
                    state.toggle_output_view();
                }
            }
            if !bad.is_empty() {
                problems.push(json!({"frame": i, "what": "render panicked", "at": bad}));
            }
        }
        out.write(&json!({"id": case["id"], "parsed": parsed, "problems": problems}));
    }
}
