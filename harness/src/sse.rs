//! C15 engine: provider stream decoding.  "decoder" feeds SseDecoder / EventFrameMapper directly
//! (string chunks); "run" sends the bytes through a real session run against the scripted
//! provider, which controls the TCP chunking (the full byte path incl. the UTF-8 carry).
use rip_provider_openresponses::{EventFrameMapper, ParsedEventKind, SseDecoder};
use serde_json::{json, Value};

use crate::util::NdjsonOut;

fn chunks_of(bytes: &[u8], cuts: &[usize]) -> Vec<Vec<u8>> {
    let mut out = Vec::new();
    let mut from = 0usize;
    let mut cs: Vec<usize> = cuts.iter().copied().filter(|c| *c > 0 && *c < bytes.len()).collect();
    cs.sort();
    cs.dedup();
    for c in cs {
        out.push(bytes[from..c].to_vec());
        from = c;
    }
    out.push(bytes[from..].to_vec());
    out
}

fn decode_direct(chunks: &[Vec<u8>]) -> Value {
    let mut dec = SseDecoder::new();
    let mut mapper = EventFrameMapper::new("s".to_string());
    let mut events = Vec::new();
    let mut frames = Vec::new();
    let mut feed = |parsed: Vec<rip_provider_openresponses::ParsedEvent>, events: &mut Vec<Value>, frames: &mut Vec<Value>| {
        for p in parsed {
            events.push(json!({
                "kind": match p.kind { ParsedEventKind::Done => "done", ParsedEventKind::InvalidJson => "invalid_json", ParsedEventKind::Event => "event" },
                "event": p.event, "raw": p.raw, "data": p.data,
            }));
            for f in mapper.map(&p) {
                let v = serde_json::to_value(&f).unwrap_or(Value::Null);
                frames.push(json!({"type": v["type"], "seq": v["seq"], "status": v["status"], "raw": v["raw"], "data": v["data"],
                                   "event_name": v["event_name"], "delta": v["delta"]}));
            }
        }
    };
    for c in chunks {
        // the decoder takes &str: only valid-UTF-8 chunks are fed directly
        let s = String::from_utf8_lossy(c).to_string();
        feed(dec.push(&s), &mut events, &mut frames);
    }
    feed(dec.finish(), &mut events, &mut frames);
    json!({"events": events, "frames": frames})
}

pub fn engine_sse(rt: &tokio::runtime::Runtime, cases: Vec<Value>, out: &mut NdjsonOut) {
    for case in cases {
        let bytes = match (case.get("hex").and_then(|h| h.as_str()), case.get("text").and_then(|t| t.as_str())) {
            (Some(h), _) => hex::decode(h).unwrap_or_default(),
            (_, Some(t)) => t.as_bytes().to_vec(),
            _ => Vec::new(),
        };
        let partitions: Vec<Vec<usize>> = case
            .get("partitions")
            .and_then(|p| p.as_array())
            .map(|a| {
                a.iter()
                    .map(|p| p.as_array().map(|x| x.iter().filter_map(|c| c.as_u64().map(|c| c as usize)).collect()).unwrap_or_default())
                    .collect()
            })
            .unwrap_or_default();
        let mode = case.get("mode").and_then(|m| m.as_str()).unwrap_or("decoder");
        let mut results = Vec::new();
        if mode == "decoder" {
            for cuts in &partitions {
                let r = std::panic::catch_unwind(|| decode_direct(&chunks_of(&bytes, cuts)));
                results.push(json!({"cuts": cuts, "out": r.unwrap_or(json!({"panic": true}))}));
            }
        } else {
            for cuts in &partitions {
                let chunks = chunks_of(&bytes, cuts);
                let script = json!([{"status": 200, "delay_ms": 45,
                                     "chunks": chunks.iter().map(|c| json!({"hex": hex::encode(c)})).collect::<Vec<_>>()}]);
                let rc = json!({"id": case["id"], "script": script, "linked": false, "input": "prompt", "timeout_ms": 8000});
                let r = rt.block_on(async { crate::runs::run_scripted(&rc, false).await });
                let frames = r.result["session_frames"][0].as_array().cloned().unwrap_or_default();
                let slim: Vec<Value> = frames
                    .iter()
                    .map(|v| json!({"type": v["type"], "seq": v["seq"], "status": v["status"], "raw": v["raw"], "data": v["data"],
                                    "event_name": v["event_name"], "delta": v["delta"], "reason": v["reason"], "errors": v["errors"]}))
                    .collect();
                results.push(json!({"cuts": cuts, "out": {"frames": slim, "timed_out": r.result["timed_out"]}}));
            }
        }
        out.write(&json!({"id": case["id"], "results": results}));
    }
}
