#![allow(dead_code)]
mod auth;
mod hub;
mod seq;
mod fidelity;
mod fsops;
mod provider;
mod runs;
mod secrets;
mod srv;
mod sse;
mod surface;
mod tasklife;
mod sub;
mod store;
mod util;
mod wslock;

use std::path::PathBuf;

fn main() {
    let args: Vec<String> = std::env::args().collect();
    if args.len() < 4 {
        eprintln!("usage: ripverif <engine> <cases.ndjson> <out.ndjson> [args..]");
        std::process::exit(2);
    }
    let engine = args[1].as_str();
    let cases = util::read_ndjson(&PathBuf::from(&args[2]));
    let mut out = util::NdjsonOut::create(&PathBuf::from(&args[3]));
    let rt = tokio::runtime::Builder::new_multi_thread()
        .worker_threads(8)
        .max_blocking_threads(64)
        .enable_all()
        .build()
        .expect("runtime");
    let _guard = rt.enter();
    match engine {
        "hist" => seq::engine_hist(cases, &mut out),
        "sched" => seq::engine_sched(cases, &mut out),
        "crash" => seq::engine_crash(cases, &mut out),
        "free" => seq::engine_free(&rt, cases, &mut out),
        "trans" => seq::engine_trans(cases, &mut out),
        "sidecar_order" => seq::engine_sidecar_order(cases, &mut out),
        "logconc" => seq::engine_logconc(cases, &mut out),
        "cachediff" => seq::engine_cachediff(cases, &mut out),
        "overtake" => seq::engine_overtake(&rt, cases, &mut out),
        "sub" => sub::engine_sub(&rt, cases, &mut out),
        "sse" => sse::engine_sse(&rt, cases, &mut out),
        "patch" => fsops::engine_patch(&rt, cases, &mut out),
        "pathguard" => fsops::engine_pathguard(&rt, cases, &mut out),
        "ckpt" => fsops::engine_ckpt(&rt, cases, &mut out),
        "surface" => surface::engine_surface(cases, &mut out),
        "surface_frames" => surface::engine_surface_frames(cases, &mut out),
        "tasklife" => tasklife::engine_tasklife(&rt, cases, &mut out),
        "shellcap" => tasklife::engine_shellcap(&rt, cases, &mut out),
        "secrets" => secrets::engine_secrets(&rt, cases, &mut out),
        "fidelity" => fidelity::engine_fidelity(&rt, cases, &mut out),
        "join_hold" => fidelity::engine_join_hold(&rt, cases, &mut out),
        "roundtrip" => fidelity::engine_roundtrip(cases, &mut out),
        "auth" => auth::engine_auth(cases, &mut out),
        "wslock" => wslock::engine_wslock(&rt, cases, &mut out),
        "runs" => {
            for case in cases {
                let r = rt.block_on(async { runs::run_scripted(&case, false).await });
                out.write(&r.result);
            }
        }
        other => {
            eprintln!("unknown engine {other}");
            std::process::exit(2);
        }
    }
    out.flush();
    drop(_guard);
    rt.shutdown_timeout(std::time::Duration::from_millis(200));
    // a call that never returned (termination violation) may still be spinning in its thread
    std::process::exit(0);
}
